"""Native harness for C14 (bounded stand-in + replay): real Screen / ScreenSubset / Plate on small screens."""
import argparse, json, itertools, random
import numpy as np
from batchie.data import Screen, ScreenSubset, Plate, filter_dataset_to_unique_treatments
from batchie.common import select_unique_zipped_numpy_arrays

ATTRS = ["plate_ids", "sample_ids", "treatment_ids", "sample_names", "treatment_names", "treatment_doses", "observations", "observation_mask"]


def make(n, rnd, arity=2):
    plates = np.array(["p%d" % rnd.randrange(3) for _ in range(n)])
    mask_by_plate = {p: rnd.random() < 0.5 for p in set(plates)}
    return Screen(observations=np.array([rnd.random() for _ in range(n)]), observation_mask=np.array([mask_by_plate[p] for p in plates], dtype=bool),
                  sample_names=np.array(["s%d" % rnd.randrange(2) for _ in range(n)]), plate_names=plates,
                  treatment_names=np.array([[rnd.choice(["a", "b", "control"]) for _ in range(arity)] for _ in range(n)]).reshape(n, arity),
                  treatment_doses=np.array([[rnd.choice([0.0, 1.0, 2.0]) for _ in range(arity)] for _ in range(n)]).reshape(n, arity),
                  control_treatment_name="control")


def eq(a, b):
    return a.shape == b.shape and np.array_equal(a, b)


def check_screen(s, rnd):
    n = s.size
    sels = [np.zeros(n, bool), np.ones(n, bool)] + [np.array([rnd.random() < 0.5 for _ in range(n)], dtype=bool) for _ in range(3)]
    for sel in sels:
        v = s.subset(sel.copy()); keep = sel.copy()
        for a in ATTRS:
            if not eq(getattr(v, a), getattr(s, a)[sel]): return "getter %s is not the parent's rows at the selection" % a
        if not eq(v.invert().selection_vector, ~sel): return "invert is not the complement"
        for sel2 in sels:
            w = s.subset(sel2.copy())
            if not eq(v.combine(w).selection_vector, sel | sel2): return "combine is not the union"
            c = ScreenSubset.concat([v, w, v])
            if not eq(c.selection_vector, sel | sel2): return "concat is not the union"
            if not eq(v.selection_vector, keep): return "combine/concat changed an operand"
        k = int(sel.sum())
        inner = np.array([rnd.random() < 0.5 for _ in range(k)], dtype=bool)
        vv = v.subset(inner)
        if not eq(v.selection_vector, keep): return "subset of a subset touched the outer view"
        for a in ATTRS:
            if not eq(getattr(vv, a), getattr(v, a)[inner]): return "nested subset does not compose for %s" % a
        if k:
            t = v.to_screen()
            for a in ("sample_names", "treatment_names", "treatment_doses", "observations", "observation_mask", "plate_names"):
                if not eq(getattr(t, a), getattr(s, a)[sel]): return "to_screen changed column %s" % a
    o, u = s.subset_observed(), s.subset_unobserved()
    if (o is None) != (not s.observation_mask.any()) or (o is not None and not eq(o.selection_vector, s.observation_mask)): return "subset_observed is not the mask"
    if (u is None) != (s.observation_mask.all()) or (u is not None and not eq(u.selection_vector, ~s.observation_mask)): return "subset_unobserved is not the complement of the mask"
    seen = np.zeros(n, int)
    for p in s.plates:
        seen += p.selection_vector
        if len(set(s.plate_ids[p.selection_vector])) != 1 or not eq(p.selection_vector, s.plate_ids == p.plate_id): return "plate view is not exactly one plate"
    if n and not np.all(seen == 1): return "plates do not partition the rows"
    f = filter_dataset_to_unique_treatments(s)
    keys = [tuple([s.sample_ids[r]] + list(s.treatment_ids[r])) for r in range(n)]
    kept = [keys[r] for r in range(n) if f.selection_vector[r]]
    if len(kept) != len(set(kept)) or set(kept) != set(keys): return "unique-condition filter does not keep exactly one row per condition"
    # the unique filter applied to a VIEW: inside the view, one row per distinct condition of the view, operand untouched
    for sel in sels[1:]:
        v = s.subset(sel.copy()); fv = filter_dataset_to_unique_treatments(v)
        kept = [keys[r] for r in range(n) if fv.selection_vector[r]]
        if fv.screen is not s or np.any(fv.selection_vector & ~sel) or len(kept) != len(set(kept)) or set(kept) != {keys[r] for r in range(n) if sel[r]}:
            return "unique-condition filter on a view does not keep exactly one row of the view per condition of the view"
        if not eq(v.selection_vector, sel): return "unique-condition filter changed its operand"
    # long-lived views over a history of the parent: read every attribute, let the parent change (an unobserved plate is marked observed in place),
    # read again: a view always reports the parent's CURRENT values at its selected rows
    views = [(s.subset(sel.copy()), sel.copy()) for sel in sels] + [(p, p.selection_vector.copy()) for p in s.plates]
    for v, sel in views:
        for a in ATTRS: getattr(v, a)
    for p in list(s.plates):
        if p.is_observed: continue
        pm = p.selection_vector.copy()
        s.set_observed(pm, np.array([rnd.uniform(2, 3) for _ in range(int(pm.sum()))]))
        for v, sel in views:
            if not eq(v.selection_vector, sel): return "a view's selection changed when the parent screen was updated"
            for a in ATTRS:
                if not eq(getattr(v, a), getattr(s, a)[sel]): return "after the parent screen changed (set_observed) a view created earlier reports stale %s" % a
            if v.size and v.is_observed != bool(s.observation_mask[sel].all()): return "after the parent screen changed a view's is_observed is stale"
        break
    other = make(max(n, 1), rnd)
    try:
        s.subset(sels[1].copy()).combine(other.subset(np.ones(other.size, bool))); return "views of different parents combined"
    except ValueError: pass
    return None


def main():
    ap = argparse.ArgumentParser()
    ap.add_argument("--tier", default="quick"); ap.add_argument("--seed", type=int, default=0)
    ap.add_argument("--search"); ap.add_argument("--replay")
    a = ap.parse_args()
    viol = []; evals = 0
    if a.replay:
        d = json.load(open(a.replay))["input"]; rnd = random.Random(d["seed"])
        r = check_screen(make(d["n"], rnd, d["arity"]), rnd)
        print(json.dumps({"violations": [dict(d, what=r)] if r else []})); return
    quick = a.tier == "quick" or a.search
    for n in range(1, 7 if quick else 10):
        for arity in (1, 2, 3):
            for rep in range(6 if quick else 40):
                seed = a.seed * 100003 + n * 1009 + arity * 101 + rep
                rnd = random.Random(seed)
                evals += 1
                try:
                    r = check_screen(make(n, rnd, arity), rnd)
                except Exception as e:  # noqa
                    r = "raised %r" % (e,)
                if r and len(viol) < 5: viol.append({"n": n, "arity": arity, "seed": seed, "what": r, "site": "data.ScreenSubset/Screen views"})
    # key collisions in the unique filter: negative ids next to the maximum id
    for rep in range(200 if quick else 2000):
        rnd = random.Random(a.seed + rep); n = rnd.randrange(2, 9); evals += 1
        arrs = [np.array([rnd.randrange(-1, 3) for _ in range(n)]) for _ in range(rnd.randrange(2, 5))]
        m = select_unique_zipped_numpy_arrays(arrs)
        keys = list(zip(*arrs)); kept = [keys[r] for r in range(n) if m[r]]
        if len(kept) != len(set(kept)) or set(kept) != set(keys):
            if len(viol) < 5: viol.append({"n": n, "arity": len(arrs), "seed": a.seed + rep, "what": "select_unique_zipped_numpy_arrays wrong on %r" % ([x.tolist() for x in arrs],), "site": "common.select_unique_zipped_numpy_arrays"})
    print(json.dumps({"violations": viol, "bounded": [{"function": "ScreenSubset/Plate/Screen views, unique filter", "bound": "screens of <%d rows, arity 1..3, random selections; %d random id tuples" % (7 if quick else 10, 200 if quick else 2000),
                                                      "evaluations": evals, "distinct_nontrivial": evals, "label": "bounded stand-in, not counted as proved"}]}))


main()
