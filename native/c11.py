"""Native harness for C11 (bounded stand-in + replay): every shipped generator / smoother and both hold-out splitters on
random partially observed screens; multiset conservation, observed pass-through, per-plate hold-out counts."""
import argparse, json, math, random
from collections import Counter
import numpy as np
from batchie.data import Screen
from batchie import retrospective as R


def make(rnd, order):
    n = rnd.randrange(2, 14)
    # names of very different widths (numpy string arrays are fixed-width: a careless preallocation truncates the longer ones)
    PL = ["p0", "initial_plate_2021_03_14_batch_A", "initial_plate_2021_03_14_batch_B", "q"] if rnd.random() < 0.5 else ["p0", "p1", "p2", "p3"]
    plates = [PL[rnd.randrange(4)] for _ in range(n)]
    obs_by = {p: rnd.random() < 0.4 for p in set(plates)}
    rows = []
    for k in range(n):
        ctl = rnd.random() < 0.25
        rows.append((plates[k], obs_by[plates[k]], ["s0", "s1", "a-sample-with-a-rather-long-name"][rnd.randrange(3)], rnd.choice("abc"), "control" if ctl else rnd.choice("abc"), 1.0, 0.0 if ctl else float(rnd.randrange(1, 3)), round(rnd.uniform(0.1, 1), 6)))
    if rnd.random() < 0.2: rows.append((plates[0], obs_by[plates[0]], "s0", "control", "control", 0.0, 0.0, 0.5))
    if order == "obs_first": rows.sort(key=lambda r: not r[1])
    elif order == "obs_last": rows.sort(key=lambda r: r[1])
    else: rnd.shuffle(rows)
    return Screen(observations=np.array([r[7] for r in rows]), observation_mask=np.array([r[1] for r in rows]), sample_names=np.array([r[2] for r in rows]),
                  plate_names=np.array([r[0] for r in rows]), treatment_names=np.array([[r[3], r[4]] for r in rows]), treatment_doses=np.array([[r[5], r[6]] for r in rows]),
                  control_treatment_name="control")


def exps(s, with_plate=False, sel=None):
    idx = range(s.size) if sel is None else [r for r in range(s.size) if sel[r]]
    return Counter((s.sample_names[r], tuple(s.treatment_names[r]), tuple(s.treatment_doses[r].tolist()), float(s.observations[r])) + ((s.plate_names[r],) if with_plate else ()) for r in idx)


def one(seed):
    rnd = random.Random(seed); s = make(rnd, rnd.choice(["obs_first", "obs_last", "shuffled"])); rng = np.random.default_rng(seed)
    pl_names = sorted(set(s.plate_names.tolist()))
    ops = [("gen", R.PlatePermutationPlateGenerator()), ("gen", R.PlatePermutationPlateGenerator(pl_names[:1])), ("gen", R.PlatePermutationPlateGenerator(list(pl_names))), ("gen", R.SampleSegregatingPermutationPlateGenerator(rnd.randrange(1, 5))), ("gen", R.PairwisePlateGenerator(rnd.choice([2, 3]), 0)),
           ("smo", R.FixedSizeSmoother(rnd.randrange(1, 4))), ("smo", R.OptimalSizeSmoother()), ("smo", R.MergeMinPlateSmoother(rnd.randrange(1, 6))),
           ("smo", R.MergeTopBottomPlateSmoother(rnd.randrange(1, 3))), ("smo", R.NPlatePerCellLineSmoother(rnd.randrange(1, 3)))]
    for kind, op in ops:
        s_in = make(random.Random(seed), "shuffled")
        before = exps(s_in); obs_before = exps(s_in, True, s_in.observation_mask)
        try:
            out = op.generate_plates(s_in, rng) if kind == "gen" else op.smooth_plates(s_in, rng)
        except ValueError:
            continue
        after = exps(out)
        nm = type(op).__name__
        if kind == "gen" and after != before: return "%s does not keep every experiment (multisets differ)" % nm
        if kind == "smo" and (after - before): return "%s invented or duplicated an experiment" % nm
        if nm not in ("MergeMinPlateSmoother", "MergeTopBottomPlateSmoother") and exps(out, True, out.observation_mask) != obs_before: return "%s changed the already observed part" % nm
    for split in (R.create_random_holdout, R.create_plate_balanced_holdout_set_among_masked_plates):
        for frac in (0.0, 1.0, rnd.choice([0.2, 0.34, 0.5, 0.75])):
            keep, hold = split(s, frac, np.random.default_rng(seed))
            if exps(keep, True) + exps(hold, True) != exps(s, True): return "%s(%.2f) is not a partition of the input" % (split.__name__, frac)
            if hold.size and not hold.observation_mask.all(): return "hold-out not fully observed"
            if split is R.create_random_holdout:
                if hold.size != math.ceil(s.size * frac): return "random hold-out size %d != ceil(%d*%.2f)" % (hold.size, s.size, frac)
            else:
                for p in set(s.plate_names.tolist()):
                    rows = s.plate_names == p; took = int((hold.plate_names == p).sum())
                    want = 0 if s.observation_mask[rows].all() else math.ceil(int(rows.sum()) * frac)
                    if took != want: return "plate-balanced hold-out took %d of plate %s (observed=%s, size %d), expected %d" % (took, p, bool(s.observation_mask[rows].all()), int(rows.sum()), want)
                km = Counter(zip(keep.plate_names.tolist(), keep.observation_mask.tolist())); sm = Counter(zip(s.plate_names.tolist(), s.observation_mask.tolist()))
                if km - sm: return "training mask changed"
    return None


def main():
    ap = argparse.ArgumentParser()
    ap.add_argument("--tier", default="quick"); ap.add_argument("--seed", type=int, default=0)
    ap.add_argument("--search"); ap.add_argument("--replay")
    a = ap.parse_args()
    if a.replay:
        d = json.load(open(a.replay))["input"]; r = one(d["seed"])
        print(json.dumps({"violations": [dict(d, what=r)] if r else []})); return
    N = 150 if (a.tier == "quick" or a.search) else 3000
    viol = []
    for k in range(N):
        seed = a.seed * 1000003 + k
        try: r = one(seed)
        except Exception as e: r = "raised %r" % (e,)
        if r and not viol: viol.append({"seed": seed, "what": r, "site": "retrospective preparation"})
    print(json.dumps({"violations": viol, "bounded": [{"function": "all shipped generators/smoothers, both hold-out splitters",
        "bound": "%d random screens (<=14 rows, 4 plates, 3 samples, vehicle-only rows, observed rows first/last/interleaved)" % N, "evaluations": N * 16, "distinct_nontrivial": N,
        "label": "bounded stand-in, not counted as proved"}]}))


main()
